/* C13: limit checks of the driver methods (bus/driver.c), P-stub route.
 *   VERIF_H 1  bus_driver_handle_hello      — connection limits are consulted before a unique name is minted /
 *                                             the connection completed; a refusal mints, completes and sends nothing
 *                                             (the Hello typestate itself is C03's unit; only the limit aspect here)
 *   VERIF_H 2  bus_driver_handle_add_match  — n_match_rules >= max_match_rules_per_connection => LimitsExceeded,
 *                                             message not read, parser / matchmaker not called
 * Oracle: dbus-daemon(1) <limit> "max_completed_connections", "max_connections_per_user",
 * "max_match_rules_per_connection"; property C13 "refused with LimitsExceeded ... and changes nothing". */
#include <config.h>
#include "dbus/dbus-internals.h"
#include VERIF_TU
#include <stdarg.h>
#include "c04_common.h"

static char c_conn, c_tx, c_msg, c_reg, c_conns, c_ctx, c_rule, c_mm, c_svc;
#define CONN ((DBusConnection *) &c_conn)
#define TX   ((BusTransaction *) &c_tx)
#define MSG  ((DBusMessage *) &c_msg)
#define REG  ((BusRegistry *) &c_reg)
#define CONNS ((BusConnections *) &c_conns)
#define CTX  ((BusContext *) &c_ctx)
#define RULE ((BusMatchRule *) &c_rule)
#define MM   ((BusMatchmaker *) &c_mm)
static const char the_text[] = "type='signal'"; static const char lname[] = "max_completed_connections";
_Bool in_active, in_limits_ok, in_eaves; int in_limit, in_n_rules;
struct { int seq, limits, t_limits, mint, t_mint, complete, t_complete, set_sender, welcome, ensure, str_init, str_free;
         int get_args, parse, parsed_ok, add_rule, remove_rule, ack, unref, priv; _Bool add_ok; } G;

dbus_bool_t bus_connection_is_active (DBusConnection *c) { PRE (c == CONN, "bus_connection_is_active"); return in_active || G.complete > 0; }
const char *bus_connection_get_name (DBusConnection *c) { return some_string; }
BusConnections *bus_connection_get_connections (DBusConnection *c) { PRE (c == CONN, "bus_connection_get_connections"); return CONNS; }
BusContext *bus_connection_get_context (DBusConnection *c) { return CTX; }
BusRegistry *bus_connection_get_registry (DBusConnection *c) { PRE (c == CONN, "bus_connection_get_registry"); return REG; }
void bus_context_log (BusContext *c, DBusSystemLogSeverity s, const char *msg, ...) { }
#if VERIF_H == 1
dbus_bool_t bus_connections_check_limits (BusConnections *cs, DBusConnection *c, const char **limit_name_out, int *limit_out, DBusError *e)
{ PRE (cs == CONNS && c == CONN && e != NULL && !ERR_SET (e), "bus_connections_check_limits: this connection, clear error"); G.limits++; G.t_limits = ++G.seq;
  if (!in_limits_ok) { if (limit_name_out) *limit_name_out = lname; if (limit_out) *limit_out = nondet_int (); e->name = DBUS_ERROR_LIMITS_EXCEEDED; e->message = some_string; return FALSE; }
  return TRUE; }                                                           /* enforced: C13.check_limits */
dbus_bool_t _dbus_string_init (DBusString *s) { if (nondet_bool ()) return FALSE; G.str_init++; return TRUE; }
void _dbus_string_free (DBusString *s) { G.str_free++; }
dbus_bool_t verif_stub_create_unique_client_name (BusRegistry *r, DBusString *s) { PRE (r == REG && G.limits == 1 && in_limits_ok, "create_unique_client_name: only after the limits admitted the connection"); G.mint++; G.t_mint = ++G.seq; return nondet_bool (); }
dbus_bool_t bus_connection_complete (DBusConnection *c, const DBusString *name, DBusError *e)
{ PRE (c == CONN && G.limits == 1 && in_limits_ok && G.mint == 1 && !in_active && (e == NULL || !ERR_SET (e)), "bus_connection_complete: admitted by the limits, name minted");
  G.t_complete = ++G.seq; if (nondet_bool ()) { stub_fail (e); return FALSE; } G.complete++; return TRUE; }               /* enforced: C13.complete */
dbus_bool_t dbus_message_set_sender (DBusMessage *m, const char *s) { G.set_sender++; return nondet_bool (); }
dbus_bool_t verif_stub_bus_driver_send_welcome_message (DBusConnection *c, DBusMessage *m, BusTransaction *t, DBusError *e) { PRE (G.complete == 1, "bus_driver_send_welcome_message: completed connection"); if (nondet_bool ()) { stub_fail (e); return FALSE; } G.welcome++; return TRUE; }
BusService *bus_registry_ensure (BusRegistry *r, const DBusString *n, DBusConnection *c, dbus_uint32_t flags, BusTransaction *t, DBusError *e)
{ PRE (G.complete == 1 && c == CONN && flags == 0, "bus_registry_ensure: unique name of the completed connection"); if (nondet_bool ()) { stub_fail (e); return NULL; } G.ensure++; return (BusService *) &c_svc; }
#else
BusContext *bus_transaction_get_context (BusTransaction *t) { PRE (t == TX, "bus_transaction_get_context"); return CTX; }
int bus_context_get_max_match_rules_per_connection (BusContext *c) { PRE (c == CTX, "bus_context_get_max_match_rules_per_connection"); return in_limit; }
int bus_connection_get_n_match_rules (DBusConnection *c) { PRE (c == CONN, "bus_connection_get_n_match_rules: the caller's counter"); return in_n_rules; }
dbus_bool_t dbus_message_get_args (DBusMessage *m, DBusError *e, int first_arg_type, ...)
{ va_list ap; PRE (m == MSG && e != NULL && !ERR_SET (e) && first_arg_type == DBUS_TYPE_STRING, "dbus_message_get_args"); G.get_args++;
  if (nondet_bool ()) { stub_fail (e); return FALSE; } va_start (ap, first_arg_type); *va_arg (ap, const char **) = the_text; va_end (ap); return TRUE; }
void _dbus_string_init_const (DBusString *s, const char *v) { PRE (v == the_text, "_dbus_string_init_const"); }
BusMatchRule *bus_match_rule_parse (DBusConnection *c, const DBusString *s, DBusError *e) { PRE (c == CONN && e != NULL && !ERR_SET (e), "bus_match_rule_parse"); G.parse++; if (nondet_bool ()) { stub_fail (e); return NULL; } G.parsed_ok++; return RULE; }
const char *bus_context_get_type (BusContext *c) { return some_string; }
dbus_bool_t bus_match_rule_get_client_is_eavesdropping (BusMatchRule *r) { PRE (r == RULE, "bus_match_rule_get_client_is_eavesdropping"); return in_eaves; }
dbus_bool_t verif_stub_bus_driver_check_caller_is_privileged (DBusConnection *c, BusTransaction *t, DBusMessage *m, DBusError *e) { G.priv++; if (nondet_bool ()) { e->name = DBUS_ERROR_ACCESS_DENIED; e->message = some_string; return FALSE; } return TRUE; }
dbus_bool_t bus_apparmor_allows_eavesdropping (DBusConnection *c, const char *bt, DBusError *e) { if (nondet_bool ()) { e->name = DBUS_ERROR_ACCESS_DENIED; e->message = some_string; return FALSE; } return TRUE; }
BusMatchmaker *bus_connection_get_matchmaker (DBusConnection *c) { return MM; }
dbus_bool_t bus_matchmaker_add_rule (BusMatchmaker *mm, BusMatchRule *r) { PRE (mm == MM && r == RULE && in_n_rules < in_limit, "bus_matchmaker_add_rule: only below the limit"); G.add_ok = nondet_bool (); if (G.add_ok) G.add_rule++; return G.add_ok; }
void bus_matchmaker_remove_rule (BusMatchmaker *mm, BusMatchRule *r) { PRE (mm == MM && r == RULE && G.add_rule == 1, "bus_matchmaker_remove_rule: the rule just added"); G.remove_rule++; }
dbus_bool_t verif_stub_bus_driver_send_ack_reply (DBusConnection *c, BusTransaction *t, DBusMessage *m, DBusError *e) { PRE (c == CONN && t == TX && m == MSG, "bus_driver_send_ack_reply"); if (nondet_bool ()) { stub_fail (e); return FALSE; } G.ack++; return TRUE; }
void bus_match_rule_unref (BusMatchRule *r) { PRE (r == RULE, "bus_match_rule_unref"); G.unref++; }
#endif

void harness (void)
{
  DBusError err; err.name = NULL; err.message = NULL;
  in_active = nondet_bool (); in_limits_ok = nondet_bool (); in_eaves = nondet_bool (); in_limit = nondet_int (); in_n_rules = nondet_int ();
#if VERIF_H == 1
  dbus_bool_t ret = bus_driver_handle_hello (CONN, TX, MSG, &err);
  POST (IMP (ret, !ERR_SET (&err)) && IMP (!ret, ERR_SET (&err)), "hello.post0 error set exactly on FALSE");
  POST (IMP (in_active, !ret && G.limits == 0 && G.mint == 0 && G.complete == 0 && G.ensure == 0), "hello.post1 second Hello: refused, nothing consulted or changed");
  POST (IMP (!in_active, G.limits == 1), "hello.post2 connection limits consulted exactly once");
  POST (IMP (!in_active && !in_limits_ok, !ret && err_is (&err, DBUS_ERROR_LIMITS_EXCEEDED)), "hello.post3 limits refuse => LimitsExceeded passed on");
  POST (IMP (!in_active && !in_limits_ok, G.mint == 0 && G.t_complete == 0 && G.complete == 0 && G.set_sender == 0 && G.welcome == 0 && G.ensure == 0 && G.str_init == 0), "hello.post4 refusal mints no name, completes nothing, sends nothing");
  POST (IMP (G.mint > 0, G.t_limits > 0 && G.t_limits < G.t_mint) && IMP (G.t_complete > 0, G.t_limits < G.t_complete && G.t_mint < G.t_complete), "hello.post5 order: limits, then mint, then complete");
  POST (IMP (ret, in_limits_ok && G.mint == 1 && G.complete == 1 && G.welcome == 1 && G.ensure == 1), "hello.post6 success = admitted, minted once, completed once, welcomed, unique name registered");
  POST (G.str_free == G.str_init, "hello.post7 name buffer released on every path");
  if (ret) REACH ("hello-ok"); if (in_active) REACH ("second-hello"); if (!in_active && !in_limits_ok) REACH ("limits-refused"); if (!ret && G.complete == 1) REACH ("failed-after-complete");
#else
  __CPROVER_assume (in_n_rules >= 0);
  dbus_bool_t ret = bus_driver_handle_add_match (CONN, TX, MSG, &err);
  int over = in_n_rules >= in_limit;
  POST (IMP (ret, !ERR_SET (&err)) && IMP (!ret, ERR_SET (&err)), "am.post0 error set exactly on FALSE");
  POST (IMP (over, !ret && err_is (&err, DBUS_ERROR_LIMITS_EXCEEDED)), "am.post1 match-rule limit reached (>=) => LimitsExceeded");
  POST (IMP (over, G.get_args == 0 && G.parse == 0 && G.add_rule == 0 && G.ack == 0 && G.unref == 0), "am.post2 refusal: message not read, parser and matchmaker not called");
  POST (IMP (err_is (&err, DBUS_ERROR_LIMITS_EXCEEDED), over) && IMP (ret, in_n_rules < in_limit), "am.post3 below the limit no LimitsExceeded; success only below the limit");
  POST (IMP (ret, G.add_rule == 1 && G.remove_rule == 0 && G.ack == 1), "am.post4 success: exactly one rule added, acknowledged");
  POST (IMP (!ret, G.add_rule == G.remove_rule), "am.post5 failure: no rule remains added");
  POST (G.unref == G.parsed_ok && G.parse <= 1, "am.post6 the parsed rule's reference is dropped exactly once");
  POST (IMP (in_eaves && G.add_rule == 1, G.priv == 1), "am.post7 eavesdropping rules only for privileged callers");
  if (ret) REACH ("added"); if (over) REACH ("limit"); if (!ret && !over && G.add_rule == 1) REACH ("ack-failed-rolled-back"); if (!ret && !over && G.parse == 0) REACH ("bad-args");
#endif
}
