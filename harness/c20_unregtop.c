/* C20.unregtop (T, P-stub): _dbus_object_tree_unregister_and_unlock and _dbus_object_subtree_unref, real bodies.
 * The recursion unregister_and_free_path_recurse (root, path, ...) is bound to its contract (C20.unreg + paper
 * induction): found => the handler's unregister function and user data are handed out.
 * T: the application's unregister function runs exactly once, with the handler's user data, AFTER the
 * connection lock was released, and only if a handler was found; the connection is ref'd across the call. */
#define VERIF_NO_MEMMOVE_STUB 1
#include "c20_common.h"
VERIF_FSR_PROTO(2) { __CPROVER_assert (0, "outside this unit"); return NULL; }
VERIF_FSR_PROTO(3) { __CPROVER_assert (0, "outside this unit"); return NULL; }
VERIF_FSR_PROTO(4) { __CPROVER_assert (0, "outside this unit"); return NULL; }
static DBusObjectTree *g_tree; static const char **g_path; static void *g_ud; static _Bool g_found, g_has_unreg_fn;
static int g_rec_calls, g_unlocks, g_refs, g_unrefs, g_cb_calls, g_cb_locked, g_cb_wrong_ud, g_warns, g_order_bad; static _Bool g_locked;
static void h_unreg (DBusConnection *c, void *d) { g_cb_calls++; if (g_locked) g_cb_locked = 1; if (d != g_ud || c != g_tree->connection) g_cb_wrong_ud = 1; if (g_tree->connection && g_refs != 1) g_order_bad = 1; }
VERIF_UFR_PROTO(10) { __CPROVER_assert (0, "outside this unit"); return 0; }
VERIF_UFR_PROTO(11)
{
  PRE (subtree == g_tree->root && path == g_path && *continue_removal_attempts == TRUE && *unregister_function_out == NULL && *user_data_out == NULL, "unregister recursion: from the root, outputs cleared, pruning enabled");
  PRE (g_locked || g_tree->connection == NULL, "tree modified under the connection lock");
  g_rec_calls++;
  if (g_found) { *unregister_function_out = g_has_unreg_fn ? h_unreg : NULL; *user_data_out = g_ud; *continue_removal_attempts = nondet_bool (); }
  return g_found;
}
void _dbus_warn (const char *format, ...) { g_warns++; }
DBusConnection *_dbus_connection_ref_unlocked (DBusConnection *c) { PRE (c == g_tree->connection && c != NULL && g_locked, "_dbus_connection_ref_unlocked: lock held"); g_refs++; return c; }
void _dbus_connection_unlock (DBusConnection *c) { PRE (c == g_tree->connection && c != NULL && g_locked, "_dbus_connection_unlock: lock held"); g_locked = 0; g_unlocks++; }
void dbus_connection_unref (DBusConnection *c) { PRE (c == g_tree->connection && c != NULL && !g_locked, "dbus_connection_unref: lock not held"); if (g_cb_calls != (g_found && g_has_unreg_fn ? 1 : 0)) g_order_bad = 1; g_unrefs++; }

void harness (void)
{
  DBusObjectTree tree; DBusObjectSubtree root_obj; char conn;
  tree.root = &root_obj; tree.refcount = 1; tree.connection = nondet_bool () ? (DBusConnection *) &conn : NULL; g_tree = &tree;
  const char *path[2]; path[0] = nondet_ptr (); path[1] = NULL; g_path = path;   /* only printed in the warning */
  char k0[2]; if (path[0] != NULL) { path[0] = k0; }
  g_found = nondet_bool (); g_has_unreg_fn = nondet_bool (); g_ud = nondet_ptr ();
  g_rec_calls = g_unlocks = g_refs = g_unrefs = g_cb_calls = g_cb_locked = g_cb_wrong_ud = g_warns = g_order_bad = 0; g_locked = (tree.connection != NULL);   /* connection == NULL: embedded-test trees have no lock */
  _dbus_object_tree_unregister_and_unlock (&tree, path);
  __CPROVER_assert (g_rec_calls == 1, "post one unregister walk");
  __CPROVER_assert (g_cb_calls == ((g_found && g_has_unreg_fn) ? 1 : 0), "post the unregister function runs exactly once iff a handler with one was found");
  __CPROVER_assert (!g_cb_locked && !g_cb_wrong_ud && !g_order_bad, "post it runs after the unlock, with the handler's user data, inside the ref/unref bracket");
  __CPROVER_assert (IMP (tree.connection != NULL, g_unlocks == 1 && g_refs == 1 && g_unrefs == 1 && !g_locked), "post connection unlocked once, ref and unref balanced");
  __CPROVER_assert (g_warns == (g_found ? 0 : 1), "post unknown path is only warned about");
  if (g_found && g_has_unreg_fn) REACH ("callback"); if (!g_found) REACH ("not-registered"); if (tree.connection == NULL) REACH ("no-connection");
}
