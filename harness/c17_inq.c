/* C17 / C05 / C11 (P-stub, loop-free): the incoming queue of a connection, real bodies of
 *   _dbus_connection_pop_message_link_unlocked, _dbus_connection_putback_message_link_unlocked,
 *   _dbus_connection_queue_synthesized_message_link                               (dbus/dbus-connection.c).
 * Queue documentation: "Queue of messages we have received, end of the list received most recently".
 * Contract (FIFO by construction): a received or synthesized message enters ONLY at the end (arrival order:
 * C17.queue_received proves the same for wire messages); dispatch takes ONLY the first element; a message put back (the
 * handler ran out of memory) returns to the FRONT so that it is the next one dispatched again - no later message overtakes
 * it; n_incoming counts them. */
#include "c17_common.h"
static DBusConnection c; static char o_first, o_msg; static DBusList first_link, mlink;
static struct { int pop_first, pop_last, prepends, appends, wakeups; DBusList *prepended, *appended; } G;
DBusList *_dbus_list_pop_first_link (DBusList **list)
{ if (list == &c.incoming_messages) { G.pop_first++; PRE (*list != NULL, "_dbus_list_pop_first_link: n_incoming > 0 means the queue is not empty"); *list = NULL; return &first_link; }
  PRE (list == &c.expired_messages && *list == NULL, "expired list empty"); return NULL; }
DBusList *_dbus_list_pop_last_link (DBusList **list) { __CPROVER_assert (list != &c.incoming_messages, "inq.out1 dispatch never takes the most recently received message first"); G.pop_last++; return NULL; }
void *_dbus_list_pop_last (DBusList **list) { __CPROVER_assert (list != &c.incoming_messages, "inq.out1 dispatch never takes the most recently received message first"); G.pop_last++; return NULL; }
DBusList *_dbus_list_get_last_link (DBusList **list) { __CPROVER_assert (list != &c.incoming_messages, "inq.out1 dispatch never takes the most recently received message first"); return NULL; }
void _dbus_list_prepend_link (DBusList **list, DBusList *link) { PRE (list == &c.incoming_messages, "_dbus_list_prepend_link: the incoming queue"); G.prepends++; G.prepended = link; *list = link; }
void _dbus_list_append_link (DBusList **list, DBusList *link) { PRE (list == &c.incoming_messages, "_dbus_list_append_link: the incoming queue"); G.appends++; G.appended = link; if (*list == NULL) *list = link; }
void verif_stub_wakeup (DBusConnection *cc) { G.wakeups++; }
void verif_stub_check_disconnected_arrived (DBusConnection *cc, DBusMessage *m) { }
void _dbus_message_trace_ref (DBusMessage *m, int a, int b, const char *why) { }
void harness (void)
{
  int mode = nondet_int (); __CPROVER_assume (mode >= 1 && mode <= 3);
  c.have_connection_lock = 1; c.expired_messages = NULL; c.message_borrowed = NULL; c.dispatch_acquired = 1;
  first_link.data = &o_first; mlink.data = &o_msg;
  c.n_incoming = nondet_int (); __CPROVER_assume (c.n_incoming >= 0 && c.n_incoming < 1000000);
  c.incoming_messages = c.n_incoming > 0 ? &first_link : NULL; int n0 = c.n_incoming;
  if (mode == 1)
    {
      DBusList *l = _dbus_connection_pop_message_link_unlocked (&c);
      __CPROVER_assert (IMP (n0 > 0, l == &first_link && G.pop_first == 1 && c.n_incoming == n0 - 1) && IMP (n0 == 0, l == NULL && G.pop_first == 0 && c.n_incoming == 0), "inq.out2 dispatch takes the FIRST (oldest) message, exactly one, or nothing from an empty queue");
      __CPROVER_assert (G.pop_last == 0 && G.prepends == 0 && G.appends == 0, "inq.out3 nothing else moves");
      if (l) REACH ("popped"); else REACH ("empty");
    }
  else if (mode == 2)
    {
      _dbus_connection_putback_message_link_unlocked (&c, &mlink);
      __CPROVER_assert (G.prepends == 1 && G.prepended == &mlink && G.appends == 0 && c.n_incoming == n0 + 1, "inq.back a message put back returns to the FRONT of the queue: it is dispatched again before any later message");
      REACH ("putback");
    }
  else
    {
      _dbus_connection_queue_synthesized_message_link (&c, &mlink);
      __CPROVER_assert (G.appends == 1 && G.appended == &mlink && G.prepends == 0 && c.n_incoming == n0 + 1, "inq.in a locally generated message joins the END of the queue (after everything already received)");
      __CPROVER_assert (G.wakeups == 1, "inq.wake the main loop is woken");
      REACH ("synthesized");
    }
}
