/* C15 / C02: dbus_message_copy (dbus/dbus-message.c), descriptor clauses, for EVERY number of descriptors (hybrid:
 * loop contract contracts/c15_copy.ovl; callee contracts as stubs).
 * Property C15 "every descriptor the bus or the library receives is closed exactly once" -- a copy owns duplicates:
 *  success => the copy holds exactly n duplicates, the k-th a duplicate of the source's k-th (ghost index), in order;
 *  failure at ANY point (header copy, body copy, array allocation, the j-th dup) => every duplicate already made is
 *  handed to close_unix_fds (whose contract closes each once: C15.close_unix_fds) before the array is freed: none is
 *  left open and ownerless;  the source message's descriptors are never touched. */
#include <config.h>
#include "dbus/dbus-internals.h"
#include "verif_prelude.h"
#include <string.h>
#include <stdlib.h>
long verif_gk;
struct c15_copy_ghost { unsigned dups, dup_calls, closed_calls, closed_n; int *closed_array; _Bool gk_seen, closed_array_live; int gk_ret, gk_src; } GC;
#include VERIF_TU
#include "../stubs/c15_msg_stubs.c"
static const DBusMessage *g_src;
int _dbus_dup (int fd, DBusError *error)
{ int r;
  PRE (GC.dup_calls < g_src->n_unix_fds && fd == g_src->unix_fds[GC.dup_calls], "_dbus_dup: duplicates the source's descriptors in order");
  if ((long) GC.dup_calls == verif_gk) { GC.gk_seen = 1; GC.gk_src = fd; }
  if (nondet_bool ()) { if ((long) GC.dup_calls == verif_gk) GC.gk_ret = -1; GC.dup_calls++; return -1; }     /* EMFILE ... */
  r = nondet_int (); __CPROVER_assume (r >= 0);
  if ((long) GC.dup_calls == verif_gk) GC.gk_ret = r;
  GC.dup_calls++; GC.dups++; return r; }
void verif_stub_close_unix_fds (int *fds, unsigned *n_fds)
{ PRE (n_fds != NULL && (*n_fds == 0 || fds != NULL), "close_unix_fds: n entries");
  PRE (G.frees == 0 || fds == NULL || !(G.freed[0] == fds || (G.frees > 1 && G.freed[1] == fds) || (G.frees > 2 && G.freed[2] == fds)), "close_unix_fds: array not yet freed");
  GC.closed_calls++; GC.closed_n += *n_fds; GC.closed_array = fds; *n_fds = 0; }
dbus_bool_t _dbus_header_copy (const DBusHeader *h, DBusHeader *dest) { return nondet_bool (); }
void _dbus_header_free (DBusHeader *h) {}
dbus_bool_t _dbus_string_init_preallocated (DBusString *s, int n) { return nondet_bool (); }
dbus_bool_t _dbus_string_copy (const DBusString *s, int start, DBusString *d, int at) { return nondet_bool (); }
void _dbus_string_free (DBusString *s) {}
int _dbus_string_get_length (const DBusString *s) { int r = nondet_int (); __CPROVER_assume (r >= 0 && r <= 0x8000000); return r; }
dbus_int32_t _dbus_atomic_inc (DBusAtomic *a) { return a->value++; }
void _dbus_trace_ref (const char *obj_name, void *obj, int old_refcount, int new_refcount, const char *why, const char *env_var, int *enabled) { }
void harness (void)
{
  static DBusMessage M; unsigned n = nondet_unsigned (); int *src;
  __CPROVER_assume (n <= 0x0fffffffu);
  memset (&GC, 0, sizeof GC); memset (&G, 0, sizeof G); verif_gk = nondet_long ();   /* DFCC havocs statics: explicit initial ghost state */
  src = malloc (n * sizeof (int)); __CPROVER_assume (src != NULL || n == 0);
  M.unix_fds = src; M.n_unix_fds = n; M.n_unix_fds_allocated = n; g_src = &M;
  int probe = 0; if (verif_gk >= 0 && verif_gk < (long) n) probe = src[verif_gk];
  DBusMessage *c = dbus_message_copy (&M);
  if (c != NULL)
    {
      __CPROVER_assert (c->n_unix_fds == n && GC.dups == n && GC.dup_calls == n, "copy.post1 success: the copy owns exactly n duplicates, one per source descriptor");
      __CPROVER_assert (IMP (verif_gk >= 0 && verif_gk < (long) n, c->unix_fds[verif_gk] == GC.gk_ret && GC.gk_ret >= 0 && GC.gk_src == probe), "copy.post2 success: the k-th descriptor of the copy is the duplicate of the source's k-th (order kept), for every k");
      __CPROVER_assert (GC.closed_calls == 0, "copy.post3 success: nothing is closed");
      __CPROVER_assert (c->n_unix_fds_allocated >= c->n_unix_fds, "copy.post4 capacity covers the count");
      if (n > 1) REACH ("copy-with-fds");
    }
  else
    {
      __CPROVER_assert (GC.closed_n == GC.dups, "copy.post5 failure: every duplicate already made is handed to close_unix_fds (closed exactly once); none is left open without an owner");
      __CPROVER_assert (IMP (GC.dups > 0, GC.closed_calls == 1), "copy.post6 failure: closed once, before the array is freed");
      if (GC.dups > 0 && GC.dup_calls > GC.dups) REACH ("dup-fails-part-way");
      if (GC.dup_calls == 0) REACH ("fails-before-dups");
    }
  __CPROVER_assert (M.n_unix_fds == n && M.unix_fds == src && IMP (verif_gk >= 0 && verif_gk < (long) n, src[verif_gk] == probe), "copy.post7 the source message keeps its descriptors");
}
