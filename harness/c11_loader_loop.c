/* C11 lemma F3 (hybrid: loop contract + stub-bound callees): the real _dbus_message_loader_queue_messages.
 * load_message is bound to its lemma-F2 contract, _dbus_header_have_message_untrusted to its C01.have_message
 * contract (verdict a function of the first 16 bytes; TRUE => 16 <= hl, hl % 8 == 0, bl >= 0, hl + bl <= len). */
#include <config.h>
#include "dbus/dbus-internals.h"
#include "verif_prelude.h"
#include "verif_ghost.h"
#include "c11_loader.h"
#ifndef IMP
#define IMP(a, b) (!(a) || (b))
#endif
extern int verif_len0; extern _Bool verif_was_corrupt;
#include VERIF_TU
long verif_gk, verif_gk2, verif_w, verif_w2; int verif_flag;
struct verif_loader_ghost G_ld; int verif_len0; _Bool verif_was_corrupt;
_Bool nondet_bool (void); int nondet_int (void);
int verif_stub_string_get_length (const DBusString *s) { return G_ld.len; }
dbus_bool_t verif_stub_have_message (int max, DBusValidity *validity, int *byte_order, int *fields_array_len, int *header_len, int *body_len, const DBusString *str, int start, int len)
{ __CPROVER_assert (start == 0 && len == G_ld.len && len >= 16, "precondition of _dbus_header_have_message_untrusted: whole buffer from offset 0, at least 16 bytes");
  int v = nondet_int (); int hl = nondet_int (), bl = nondet_int (); dbus_bool_t r = nondet_bool ();
  if (v == DBUS_VALID) { __CPROVER_assume (hl >= 16 && hl % 8 == 0 && bl >= 0 && hl <= 0x8000000 && bl <= 0x8000000 && r == (hl + bl <= len)); *header_len = hl; *body_len = bl; *fields_array_len = nondet_int (); *byte_order = nondet_int (); }
  else { __CPROVER_assume (!r); }
  *validity = v; return r; }
static char one_msg;
DBusMessage *verif_stub_new_empty_header (void) { if (nondet_bool ()) return NULL; G_ld.new_empty++; return (DBusMessage *) &one_msg; }
void verif_stub_message_unref (DBusMessage *m) { G_ld.unrefs++; }
DBusList *verif_stub_list_find_last (DBusList **list, void *data) { static DBusList l; return &l; }
/* contract of load_message = lemma F2 (unit C11.F2.load_message) */
dbus_bool_t verif_stub_load_message (DBusMessageLoader *loader, DBusMessage *message, int byte_order, int fields_array_len, int header_len, int body_len)
{ static DBusList l;
  __CPROVER_assert (!loader->corrupted && header_len + body_len <= G_ld.len && header_len >= 16 && body_len >= 0, "precondition of load_message: uncorrupted loader, complete frame present");
  if (nondet_bool ()) { G_ld.len -= header_len + body_len; G_ld.consumed += header_len + body_len; G_ld.loaded++; if (loader->corrupted) G_ld.loaded_after_corrupt++; loader->messages = &l; return 1; }
  if (nondet_bool ()) { loader->corrupted = 1; int why = nondet_int (); __CPROVER_assume (why != DBUS_VALID); loader->corruption_reason = why; }
  return 0; }
void harness (void)
{
  DBusMessageLoader L; dbus_bool_t r;
  L.corrupted = nondet_bool (); L.corruption_reason = nondet_int (); L.max_message_size = nondet_int (); L.messages = NULL;
  __CPROVER_assume ((L.corrupted != 0) == (L.corruption_reason != DBUS_VALID));
  G_ld.len = nondet_int (); __CPROVER_assume (G_ld.len >= 0); G_ld.consumed = 0; G_ld.loaded = 0; G_ld.loaded_after_corrupt = 0; G_ld.new_empty = 0; G_ld.unrefs = 0;
  verif_len0 = G_ld.len; verif_was_corrupt = L.corrupted;
  r = _dbus_message_loader_queue_messages (&L);
  __CPROVER_assert ((L.corrupted != 0) == (L.corruption_reason != DBUS_VALID), "F3 corrupted <=> reason != VALID");
  __CPROVER_assert (!verif_was_corrupt || (G_ld.loaded == 0 && G_ld.len == verif_len0), "F3 a corrupted loader frames nothing more");
  __CPROVER_assert (G_ld.loaded_after_corrupt == 0, "F3 no message is produced after corruption is detected");
  __CPROVER_assert (G_ld.len >= 0 && G_ld.len <= verif_len0 && G_ld.consumed == verif_len0 - G_ld.len, "F3 bytes leave the buffer only as whole frames from the front");
  __CPROVER_assert (!verif_was_corrupt || L.corrupted, "F3 corruption is sticky");
  __CPROVER_assert (G_ld.new_empty == G_ld.loaded + G_ld.unrefs, "F3 every message object is queued or released");
  __CPROVER_assert (IMP (!r, !L.corrupted), "F3 FALSE means out of memory only, never corruption");
  if (r && G_ld.loaded >= 2) __CPROVER_assert (0, "REACH:two-frames");
  if (r && L.corrupted && G_ld.loaded >= 1) __CPROVER_assert (0, "REACH:frames-then-corrupt");
  if (!r) __CPROVER_assert (0, "REACH:oom");
  if (r && !L.corrupted && G_ld.len >= 16) __CPROVER_assert (0, "REACH:incomplete-frame-waits");
}
