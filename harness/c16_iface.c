/* C16: _dbus_validate_interface / _dbus_validate_error_name accept exactly the interface-name
 * grammar ("2 or more elements separated by '.', ...").  -DVERIF_FN names the function. */
#include "verif_str.h"
#include "dbus/dbus-marshal-validate.h"
long verif_gk, verif_gk2, verif_w, verif_w2; int verif_flag;
#define B SB(str, start)
dbus_bool_t VERIF_FN (const DBusString *str, int start, int len)
STR_OK_REQUIRES(str)
__CPROVER_requires(start >= 0 && len >= 0 && start <= REAL(str)->len)
__CPROVER_requires(verif_flag == 0)
__CPROVER_assigns(verif_w, verif_w2, verif_flag)
__CPROVER_ensures(__CPROVER_return_value == 0 || __CPROVER_return_value == 1)
/* soundness */
__CPROVER_ensures(IMP(__CPROVER_return_value, G_IFACE_GLOBAL(len) && len <= REAL(str)->len - start))
__CPROVER_ensures(IMP(__CPROVER_return_value, G_AT(verif_gk, len, G_IFACE_LOCAL(B, len, verif_gk))))
__CPROVER_ensures(IMP(__CPROVER_return_value, 0 <= verif_w2 && verif_w2 < len && B[verif_w2] == '.'))
/* completeness */
__CPROVER_ensures(IMP(!__CPROVER_return_value, !G_IFACE_GLOBAL(len) || len > REAL(str)->len - start
     || (0 <= verif_w && verif_w < len && !G_IFACE_LOCAL(B, len, verif_w))
     || (verif_flag == 1 && G_AT(verif_gk, len, B[verif_gk] != '.'))))
;
void harness (void)
{
  const DBusString *s; int start, len;
  dbus_bool_t r = VERIF_FN (s, start, len);
  if (r) REACH("accept"); else REACH("reject");
  if (!r && verif_flag == 1) REACH("reject-no-dot");
  if (r && len == 255) REACH("accept-255");
}
