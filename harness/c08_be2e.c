/* C08.b_e2e.* — B units: whole server-side conversations through the REAL dbus/dbus-auth.c (constructor, do_work,
 * process_command, state handlers, handle_auth, process_data, mechanisms, reply writers) on the REAL dbus/dbus-string.c.
 * The client's bytes are a fixed script (plus VERIF_K arbitrary trailing bytes); socket credentials and the uid the user
 * database returns for the requested identity are arbitrary.  Only the credentials object is modelled (harness/c08_model.h).
 * Oracle: the specification's examples and state diagram, run by hand for each script:
 *
 *  script 1  "AUTH EXTERNAL 31303030\r\nBEGIN\r\n" + K bytes        ["Example of successful EXTERNAL authentication"]
 *            requested uid is the socket's uid  => server says exactly "OK <guid>\r\n", state Authenticated, identity = that uid,
 *                                                   the K bytes are the unused bytes (first octets of the message stream)
 *            otherwise                           => "REJECTED EXTERNAL DBUS_COOKIE_SHA1 ANONYMOUS\r\n", then BEGIN => disconnect
 *  script 2  "AUTH\r\nBEGIN\r\n"                                       ["Example of finding out mechanisms"; BEGIN too early]
 *            => "REJECTED EXTERNAL DBUS_COOKIE_SHA1 ANONYMOUS\r\n", NeedDisconnect, never authenticated, failures == 1
 *  script 3  "AUTH ANONYMOUS\r\nCANCEL\r\nAUTH EXTERNAL 30\r\nBEGIN\r\n" + K bytes   [the property's "OK obtained then CANCEL then
 *            a different mechanism"]
 *            => OK, REJECTED, then as script 1: the identity seen after BEGIN is EXTERNAL's, never the anonymous one, and
 *               only if the socket's uid matched
 *  script 4  "AUTH EXTERNAL\r\nDATA\r\nNEGOTIATE_UNIX_FD\r\nBEGIN\r\n" + K bytes     [empty initial response, empty DATA, fd negotiation]
 *            => "DATA\r\n", then OK (identity = socket credentials), then AGREE_UNIX_FD or ERROR, then Authenticated
 */
#define C08_REAL_STRINGS 1
#include "c08_model.h"
#include VERIF_TU

#ifndef VERIF_SCRIPT
#define VERIF_SCRIPT 1
#endif
#ifndef VERIF_K
#define VERIF_K 3
#endif
unsigned char nondet_uchar (void);

/* credentials objects handed out by _dbus_credentials_new (three per conversation) */
static DBusCredentials cred_pool[4]; static int cred_next;
DBusCredentials *_dbus_credentials_new (void) { PRE (cred_next < 4, "model limit: at most four credentials objects"); DBusCredentials *c = &cred_pool[cred_next++]; c->refcount = 1; cred_clear (c); return c; }
/* ERROR replies: the text of the explanation is not modelled */
dbus_bool_t verif_stub_append_printf (DBusString *str, const char *format, ...) { return _dbus_string_append (str, "ERROR \"?\"\r\n"); }

static const char guid_text[] = "0123456789abcdef0123456789abcdef";
#if VERIF_SCRIPT == 1
static const char script[] = "AUTH EXTERNAL 31303030\r\nBEGIN\r\n";
#elif VERIF_SCRIPT == 2
static const char script[] = "AUTH\r\nBEGIN\r\n";
#elif VERIF_SCRIPT == 3
static const char script[] = "AUTH ANONYMOUS\r\nCANCEL\r\nAUTH EXTERNAL 30\r\nBEGIN\r\n";
#else
static const char script[] = "AUTH EXTERNAL\r\nDATA\r\nNEGOTIATE_UNIX_FD\r\nBEGIN\r\n";
#endif
static const char REJ[] = "REJECTED EXTERNAL DBUS_COOKIE_SHA1 ANONYMOUS\r\n";
static const char OKL[] = "OK 0123456789abcdef0123456789abcdef\r\n";

static int out_is (DBusAuth *auth, const char *a, const char *b, const char *c)
{ /* outgoing == a ++ b ++ c */
  const DBusString *o = &auth->outgoing; int n = _dbus_string_get_length (o), i = 0, k;
  const char *parts[3]; parts[0] = a; parts[1] = b; parts[2] = c;
  for (k = 0; k < 3; k++) { const char *p = parts[k]; int j; for (j = 0; p[j] != 0; j++, i++) { if (i >= n || _dbus_string_get_byte (o, i) != (unsigned char) p[j]) return 0; } }
  return i == n;
}

void harness (void)
{
  DBusString guid; DBusAuth *auth; DBusString *buf; DBusCredentials sock; unsigned char tail[VERIF_K > 0 ? VERIF_K : 1]; int i;
  const int slen = sizeof script - 1;
  _dbus_string_init_const (&guid, guid_text);
  auth = _dbus_auth_server_new (&guid);
  __CPROVER_assume (auth != NULL);
  POST (auth->state == &server_state_waiting_for_auth && DBUS_AUTH_SERVER (auth)->failures == 0 && DBUS_AUTH_SERVER (auth)->max_failures == 6, "e2e: \"The server starts out in state WaitingForAuth\", no failures, a finite maximum");
  cred_havoc (&sock); cred_havoc (&g_myself); g_myself.refcount = 0; __CPROVER_assume (!CRED_ANON (&g_myself));
  __CPROVER_assume (_dbus_auth_set_credentials (auth, &sock));
  _Bool fd_possible = nondet_bool (); _dbus_auth_set_unix_fd_possible (auth, fd_possible);
  _dbus_auth_get_buffer (auth, &buf);
  for (i = 0; i < slen; i++) __CPROVER_assume (_dbus_string_append_byte (buf, (unsigned char) script[i]));
  for (i = 0; i < VERIF_K; i++) { tail[i] = nondet_uchar (); __CPROVER_assume (_dbus_string_append_byte (buf, tail[i])); }
  _dbus_auth_return_buffer (auth, buf);
  g_add_from_user_calls = 0;

  DBusAuthState r = _dbus_auth_do_work (auth);
  __CPROVER_assume (r != DBUS_AUTH_STATE_WAITING_FOR_MEMORY);       /* allocation does not fail in this unit */
  DBusCredentials *id = auth->authorized_identity;
  const DBusString *unused = NULL; _dbus_auth_get_unused_bytes (auth, &unused);
  _Bool authd = auth->state == &common_state_authenticated, disc = auth->state == &common_state_need_disconnect;
  int fails = DBUS_AUTH_SERVER (auth)->failures;
  POST (authd || disc, "e2e: the script ends the conversation one way or the other");
  POST (IMP (authd, unused == &auth->incoming && _dbus_string_get_length (unused) == VERIF_K), "e2e: authenticated => exactly the bytes after BEGIN's CRLF are left for the message stream");
  for (i = 0; i < VERIF_K; i++) if (authd) POST (_dbus_string_get_byte (unused, i) == tail[i], "e2e: authenticated => those bytes are unchanged");
#if VERIF_SCRIPT == 1 || VERIF_SCRIPT == 3
  /* the uid the user database gave for the requested identity */
  _Bool match = g_add_from_user_calls == 1 && g_userdb_ok && g_userdb_uid == sock.unix_uid;
#endif
#if VERIF_SCRIPT == 1
  POST (IMP (authd, match && id->unix_uid == sock.unix_uid && CRED_SUPERSET (&sock, id) && fails == 0), "e2e(1): authenticated only as the socket's own uid");
  POST (IMP (authd, out_is (auth, OKL, "", "")), "e2e(1): the server said exactly OK <guid>");
  POST (IMP (disc, fails == 1 && CRED_EMPTY (id) && out_is (auth, REJ, "", "")), "e2e(1): otherwise REJECTED with the mechanism list, then BEGIN => disconnect, no identity");
  POST (IMP (CRED_ANON (&sock), disc), "e2e(1): no socket credentials => never authenticated by EXTERNAL");
  if (authd) REACH ("authenticated"); if (disc) REACH ("rejected-then-disconnected");
#elif VERIF_SCRIPT == 2
  POST (disc && !authd && fails == 1 && CRED_EMPTY (id) && out_is (auth, REJ, "", ""), "e2e(2): AUTH => REJECTED [mechs]; BEGIN in WaitingForAuth => disconnect");
  REACH ("disconnected");
#elif VERIF_SCRIPT == 3
  POST (fails == (authd ? 1 : 2), "e2e(3): CANCEL counts as a rejection; a failed EXTERNAL as a second one");
  POST (IMP (authd, match && !CRED_ANON (id) && id->unix_uid == sock.unix_uid && CRED_SUPERSET (&sock, id)), "e2e(3): after OK-CANCEL-AUTH EXTERNAL the identity is EXTERNAL's, never the anonymous one");
  POST (IMP (authd, out_is (auth, OKL, REJ, OKL)), "e2e(3): OK, REJECTED, OK");
  POST (IMP (disc, CRED_EMPTY (id) && out_is (auth, OKL, REJ, REJ)), "e2e(3): OK, REJECTED, REJECTED, disconnect, no identity left");
  if (authd) REACH ("authenticated"); if (disc) REACH ("rejected-then-disconnected");
#else
  POST (IMP (authd, !CRED_ANON (&sock) && CRED_EQ (id, &sock) && fails == 0 && g_add_from_user_calls == 0), "e2e(4): empty identity => the socket credentials are granted as they are");
  POST (IMP (authd, auth->unix_fd_negotiated == fd_possible), "e2e(4): fd passing negotiated iff possible");
  POST (IMP (authd && fd_possible, out_is (auth, "DATA\r\n", OKL, "AGREE_UNIX_FD\r\n")), "e2e(4): DATA, OK, AGREE_UNIX_FD");
  POST (IMP (authd && !fd_possible, out_is (auth, "DATA\r\n", OKL, "ERROR \"?\"\r\n")), "e2e(4): DATA, OK, ERROR");
  POST (IMP (CRED_ANON (&sock), disc && fails == 1), "e2e(4): no socket credentials => REJECTED at once, then DATA => ERROR ... BEGIN => disconnect");
  if (authd && fd_possible) REACH ("authenticated-with-fds"); if (authd && !fd_possible) REACH ("authenticated-without-fds"); if (disc) REACH ("no-credentials");
#endif
  /* the transport's next step: flush, ask again */
  if (authd)
    {
      _dbus_auth_bytes_sent (auth, _dbus_string_get_length (&auth->outgoing));
      POST (_dbus_auth_do_work (auth) == DBUS_AUTH_STATE_AUTHENTICATED, "e2e: after flushing the replies do_work reports AUTHENTICATED");
      POST (_dbus_string_get_length (&auth->incoming) == VERIF_K, "e2e: and still has not touched the bytes after BEGIN");
      POST (_dbus_auth_get_identity (auth) == id, "e2e: the application sees the authorized identity");
    }
}
