/* C17 common part: the REAL dbus/dbus-connection.c (VERIF_TU) behind the verification prelude, so that the
 * library's own assertions (_dbus_assert, and the TOOK_LOCK_CHECK / RELEASING_LOCK_CHECK / HAVE_LOCK_CHECK
 * macros on connection->have_connection_lock, which exist because DBUS_DISABLE_CHECKS is not defined) are
 * proof obligations.  The lock typestate of DESIGN C17 ("ghost g_lock_held") is therefore the library's own
 * field have_connection_lock; the mutex primitives themselves are no-op stubs (sequential semantics).
 *
 * The pending call object is private to dbus-pending-call.c: units that need the REAL pending-call code link
 * harness/c17_pc.c (which #includes the real dbus-pending-call.c and exports accessors); units that only
 * need its typestate define the _dbus_pending_call_* entry points as contract stubs over the ghost record G. */
#ifndef C17_COMMON_H
#define C17_COMMON_H
#include <config.h>
#include "dbus/dbus-internals.h"
#include "verif_prelude.h"
#define REACH(tag) __CPROVER_assert(0, "REACH:" tag)
#define IMP(a, b) (!(a) || (b))
#define PRE(c, what) __CPROVER_assert((c), "precondition of " what)
_Bool nondet_bool (void); int nondet_int (void); long nondet_long (void); void *nondet_ptr (void); unsigned nondet_uint (void);
#include VERIF_TU

/* ---- mutexes / condvars: sequential model (assumed): the lock TYPESTATE is have_connection_lock ---- */
#ifdef VERIF_ENV_ON_LOCK
void verif_env_step (void);      /* other threads ran while the lock was not held */
void _dbus_rmutex_lock (DBusRMutex *m) { verif_env_step (); }
#else
void _dbus_rmutex_lock (DBusRMutex *m) { }
#endif
void _dbus_rmutex_unlock (DBusRMutex *m) { }
void _dbus_cmutex_lock (DBusCMutex *m) { }
void _dbus_cmutex_unlock (DBusCMutex *m) { }
void _dbus_condvar_wake_one (DBusCondVar *c) { }
dbus_int32_t _dbus_atomic_inc (DBusAtomic *atomic) { dbus_int32_t old = atomic->value; atomic->value = old + 1; return old; }
dbus_int32_t _dbus_atomic_dec (DBusAtomic *atomic) { dbus_int32_t old = atomic->value; atomic->value = old - 1; return old; }
dbus_int32_t _dbus_atomic_get (DBusAtomic *atomic) { return atomic->value; }
void _dbus_trace_ref (const char *obj_name, void *obj, int old_refcount, int new_refcount, const char *why, const char *env_var, int *enabled) { }
#endif
