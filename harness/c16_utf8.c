/* C16/C01: _dbus_string_validate_utf8 accepts exactly well-formed UTF-8 without NUL
 * (Unicode table 3-7), both directions. */
#include "verif_str.h"
long verif_gk, verif_gk2, verif_w, verif_w2; int verif_flag;
#define B SB(str, start)
dbus_bool_t _dbus_string_validate_utf8 (const DBusString *str, int start, int len)
STR_OK_REQUIRES(str)
__CPROVER_requires(start >= 0 && len >= 0 && start <= REAL(str)->len)
__CPROVER_assigns(verif_w)
__CPROVER_ensures(__CPROVER_return_value == 0 || __CPROVER_return_value == 1)
__CPROVER_ensures(IMP(__CPROVER_return_value, len <= REAL(str)->len - start))
__CPROVER_ensures(IMP(__CPROVER_return_value, VERIF_UTF8_PREFIX_OK(B, len, verif_gk)))
__CPROVER_ensures(IMP(!__CPROVER_return_value, len > REAL(str)->len - start
     || (0 <= verif_w && verif_w < len && !U8_LOCAL_OK(B, len, verif_w))))
;
void harness (void)
{
  const DBusString *s; int start, len;
  dbus_bool_t r = _dbus_string_validate_utf8 (s, start, len);
  if (r) REACH("accept"); else REACH("reject");
  if (r && len > 40) REACH("accept-long");
}
