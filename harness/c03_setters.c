/* C03 / C12 (P-stub, loop-free): the string-valued header setters of dbus/dbus-message.c: dbus_message_set_sender / _destination /
 * _path / _interface / _member / _error_name and set_or_delete_string_field.  Property C03 "a sender value ... placed in the header by
 * the sending client never reaches any receiver" rests on the bus's dbus_message_set_sender REPLACING whatever the client put there;
 * C12 "edited field reads back as set".  Contract: a non-NULL value => exactly one _dbus_header_set_field_basic (this header, this
 * field code, this type, &value) - unconditionally, whatever the field holds now - and its result is returned; NULL => exactly one
 * _dbus_header_delete_field (this header, this field).  Nothing else touches the header. */
#include <config.h>
#include "dbus/dbus-internals.h"
#include "verif_prelude.h"
#include <string.h>
#include <stdlib.h>
#include VERIF_TU
#include "../stubs/c15_msg_stubs.c"
static DBusMessage M; static const char val[] = ":1.1"; static DBusString some_data;
static struct { int sets, deletes, set_field, set_type, del_field; const char *set_value; dbus_bool_t result; int raw_reads; } Q;
dbus_bool_t verif_stub_set_field_basic (DBusHeader *h, int field, int type, const void *value) { PRE (h == &M.header && value != NULL, "_dbus_header_set_field_basic: this message's header"); Q.sets++; Q.set_field = field; Q.set_type = type; Q.set_value = *(const char *const *) value; Q.result = nondet_bool (); return Q.result; }
dbus_bool_t verif_stub_delete_field (DBusHeader *h, int field) { PRE (h == &M.header, "_dbus_header_delete_field: this message's header"); Q.deletes++; Q.del_field = field; Q.result = nondet_bool (); return Q.result; }
/* what the header holds at present is arbitrary: present or not, any bytes (e.g. a value the client supplied that merely BEGINS with the new one) */
dbus_bool_t verif_stub_get_field_raw (DBusHeader *h, int field, const DBusString **str, int *pos) { Q.raw_reads++; if (nondet_bool ()) return 0; *str = &some_data; *pos = nondet_int (); return 1; }
dbus_bool_t _dbus_string_equal_substring (const DBusString *a, int a_start, int a_len, const DBusString *b, int b_start) { return nondet_bool (); }
dbus_bool_t _dbus_string_equal_c_str (const DBusString *a, const char *c_str) { return nondet_bool (); }
void _dbus_string_init_const (DBusString *s, const char *v) { }
int _dbus_string_get_length (const DBusString *s) { int r = nondet_int (); __CPROVER_assume (r >= 0 && r <= 0x8000000); return r; }
dbus_bool_t _dbus_check_is_valid_bus_name (const char *n) { return 1; }
dbus_bool_t _dbus_check_is_valid_path (const char *n) { return 1; }
dbus_bool_t _dbus_check_is_valid_interface (const char *n) { return 1; }
dbus_bool_t _dbus_check_is_valid_member (const char *n) { return 1; }
dbus_bool_t _dbus_check_is_valid_error_name (const char *n) { return 1; }
void harness (void)
{
  int which = nondet_int (); _Bool null_value = nondet_bool (); const char *v = null_value ? NULL : val; dbus_bool_t r; int field, type = DBUS_TYPE_STRING;
  __CPROVER_assume (which >= 0 && which <= 5); M.locked = 0; M.generation = _dbus_current_generation;
  switch (which)
    { case 0: r = dbus_message_set_sender (&M, v); field = DBUS_HEADER_FIELD_SENDER; break;
      case 1: r = dbus_message_set_destination (&M, v); field = DBUS_HEADER_FIELD_DESTINATION; break;
      case 2: r = dbus_message_set_path (&M, v); field = DBUS_HEADER_FIELD_PATH; type = DBUS_TYPE_OBJECT_PATH; break;
      case 3: r = dbus_message_set_interface (&M, v); field = DBUS_HEADER_FIELD_INTERFACE; break;
      case 4: r = dbus_message_set_member (&M, v); field = DBUS_HEADER_FIELD_MEMBER; break;
      default: r = dbus_message_set_error_name (&M, v); field = DBUS_HEADER_FIELD_ERROR_NAME; break; }
  if (!null_value)
    { __CPROVER_assert (Q.sets == 1 && Q.deletes == 0 && Q.set_field == field && Q.set_type == type && Q.set_value == val, "setter.post1 a value is written by exactly one _dbus_header_set_field_basic with this field, type and value - whatever the field holds at present (a client-supplied value is always replaced)");
      if (which == 0) REACH ("set-sender"); }
  else
    { __CPROVER_assert (Q.deletes == 1 && Q.sets == 0 && Q.del_field == field, "setter.post2 NULL deletes exactly this field, once"); REACH ("delete"); }
  __CPROVER_assert ((r != 0) == (Q.result != 0), "setter.post3 the result is the header operation's result");
}
