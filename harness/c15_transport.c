/* C15: socket transport (dbus/dbus-transport-socket.c, static functions).
 *   VERIF_FN == 1  do_writing  — hybrid route: the while loop is closed by a loop contract
 *                  (contracts/c15_transport.ovl), callees are contracts written as stubs.
 *   VERIF_FN == 2  do_reading  — P-stub; its loop is a backward `goto again`, which cannot carry a CBMC
 *                  loop contract.  It is closed by hand exactly as a loop contract would: the harness starts
 *                  in an arbitrary state satisfying the invariant, and the stub of the last callee before
 *                  the back edge (_dbus_transport_queue_messages) asserts the invariant and cuts the path
 *                  (assume false).  The only local carried round the loop, `total`, is not havocked: its
 *                  sole uses are `total > max_bytes_read_per_iteration` (max is arbitrary, so both outcomes
 *                  are explored) and `total += bytes_read` (overflow excluded on paper: total <= max before
 *                  each addition and bytes_read <= max_to_read <= max <= 2^30).
 * Oracle: D-Bus specification, UNIX_FDS header field ("They must be sent at the same time as part of the
 * message itself"); "Authentication Protocol", NEGOTIATE_UNIX_FD / AGREE_UNIX_FD ("... the client may
 * start to send file descriptors ... only after the server agreed"); sendmsg(2)/unix(7): ancillary data
 * accompanies the first byte of the data of that call.  Property C15: "only on connections where
 * descriptor passing was negotiated", "in the number announced". */
#include <config.h>
#include "dbus/dbus-internals.h"
#include "verif_prelude.h"
_Bool nondet_bool(void); int nondet_int(void); unsigned nondet_unsigned(void); long nondet_long(void); void *nondet_ptr(void);
#define PRE(c, what) __CPROVER_assert((c), "precondition of " what)
#define IMP(a,b) (!(a) || (b))
#define REACH(tag) __CPROVER_assert(0, "REACH:" tag)
/* ghost inputs: constant during a call (not in any assigns clause) */
struct c15_transport_inputs { _Bool authenticated, can_fd, needs_encoding; } GI;
struct c15_write_ghost {
  /* message at the head of the outgoing queue */
  int cur_hl, cur_bl; unsigned cur_n;
  /* progress of that message on the wire */
  int cur_written; _Bool fd_sent_for_cur;
  /* events */
  unsigned fd_writes, plain_writes, sent, dropped, order_violations; _Bool last_write_had_fds;
} GW;
#include VERIF_TU
void _dbus_real_assert (dbus_bool_t condition, const char *condition_text, const char *file, int line, const char *func)
{ __CPROVER_assert(condition, "dbus internal assertion"); __CPROVER_assume(condition); }
void _dbus_verbose_real (const char *file, const int line, const char *function, const char *format, ...) {}
static char o_conn, o_msg, o_auth, o_loader, o_watch; static DBusString s_hdr, s_body; static int cur_fds[4];
dbus_bool_t _dbus_transport_try_to_authenticate (DBusTransport *t) { return GI.authenticated; }
dbus_bool_t _dbus_auth_get_unix_fd_negotiated (DBusAuth *a) { PRE(a == (DBusAuth *)&o_auth, "auth object of this transport"); return GI.can_fd; }
void verif_stub_do_io_error (DBusTransport *t) { t->disconnected = 1; }
int _dbus_save_socket_errno (void) { return nondet_int(); }
dbus_bool_t _dbus_get_is_errno_eagain_or_ewouldblock (int e) { return nondet_bool(); }
dbus_bool_t _dbus_get_is_errno_epipe (int e) { return nondet_bool(); }
dbus_bool_t _dbus_get_is_errno_enomem (int e) { return nondet_bool(); }
/* assumed (kernel): ETOOMANYREFS is only returned by sendmsg carrying SCM_RIGHTS */
dbus_bool_t _dbus_get_is_errno_etoomanyrefs (int e) { return GW.last_write_had_fds ? nondet_bool() : 0; }

#if VERIF_FN == 1
dbus_bool_t _dbus_connection_has_messages_to_send_unlocked (DBusConnection *c) { return nondet_bool(); }
DBusMessage *_dbus_connection_get_message_to_send (DBusConnection *c) { return (DBusMessage *)&o_msg; }
void dbus_message_lock (DBusMessage *m) { PRE(m == (DBusMessage *)&o_msg, "dbus_message_lock: head of queue"); }
void _dbus_message_get_network_data (DBusMessage *m, const DBusString **header, const DBusString **body) { *header = &s_hdr; *body = &s_body; }
void _dbus_message_get_unix_fds (DBusMessage *m, const int **fds, unsigned *n_fds) { PRE(m == (DBusMessage *)&o_msg, "_dbus_message_get_unix_fds: head of queue"); *fds = cur_fds; *n_fds = GW.cur_n; }
int _dbus_string_get_length (const DBusString *s) { PRE(s == &s_hdr || s == &s_body, "_dbus_string_get_length: header or body of the head message"); return s == &s_hdr ? GW.cur_hl : GW.cur_bl; }
dbus_bool_t _dbus_auth_needs_encoding (DBusAuth *a) { return GI.needs_encoding; }
dbus_bool_t _dbus_string_set_length (DBusString *s, int len) { return 1; }
dbus_bool_t _dbus_string_compact (DBusString *s, int max_waste) { return nondet_bool(); }
/* assumed (kernel): a write of len > 0 bytes returns -1 or a count in 1..len */
static int wrote (int len) { int r = nondet_int(); __CPROVER_assume(r == -1 || (r >= 1 && r <= len)); if (r > 0) GW.cur_written += r; return r; }
int _dbus_write_socket_with_unix_fds_two (DBusSocket fd, const DBusString *b1, int start1, int len1, const DBusString *b2, int start2, int len2, const int *fds, int n_fds)
{ PRE(GI.can_fd, "fd-carrying write: only where fd passing was negotiated");
  PRE(GW.cur_written == 0 && start1 == 0 && !GW.fd_sent_for_cur, "fd-carrying write: only with the first byte of the message, once per message");
  PRE(b1 == &s_hdr && len1 == GW.cur_hl && b2 == &s_body && start2 == 0 && len2 == GW.cur_bl, "fd-carrying write: whole header then whole body");
  PRE(fds == cur_fds && n_fds >= 0 && (unsigned)n_fds == GW.cur_n, "fd-carrying write: exactly the descriptors of this message, all of them");
  GW.fd_writes++; GW.last_write_had_fds = 1; REACH("write-with-fds");
  int r = wrote(len1 + len2); if (r > 0) GW.fd_sent_for_cur = 1; return r; }
int _dbus_write_socket_two (DBusSocket fd, const DBusString *b1, int start1, int len1, const DBusString *b2, int start2, int len2)
{ PRE(!GI.can_fd || GW.cur_written > 0, "plain write: never the first byte of a message on an fd-capable transport");
  PRE(b1 == &s_hdr && start1 == GW.cur_written && start1 >= 0 && len1 == GW.cur_hl - start1 && len1 > 0 && b2 == &s_body && start2 == 0 && len2 == GW.cur_bl, "plain write (header+body): continues at the byte after the last one written");
  GW.plain_writes++; GW.last_write_had_fds = 0; REACH("write-plain-two"); return wrote(len1 + len2); }
int _dbus_write_socket (DBusSocket fd, const DBusString *b, int start, int len)
{ PRE(!GI.can_fd || GW.cur_written > 0, "plain write: never the first byte of a message on an fd-capable transport");
  PRE(b == &s_body && start == GW.cur_written - GW.cur_hl && start >= 0 && len == GW.cur_bl - start && len > 0, "plain write (body): continues at the byte after the last one written");
  GW.plain_writes++; GW.last_write_had_fds = 0; REACH("write-plain-body"); return wrote(len); }
void _dbus_connection_message_sent_unlocked (DBusConnection *c, DBusMessage *m)
{ PRE(m == (DBusMessage *)&o_msg, "_dbus_connection_message_sent_unlocked: head of queue");
  PRE(GW.cur_written == GW.cur_hl + GW.cur_bl || (GW.cur_written == 0 && GW.last_write_had_fds), "message leaves the queue only when completely written, or refused by the kernel before its first byte (ETOOMANYREFS)");
  if (GW.cur_written == 0) { GW.dropped++; REACH("dropped-etoomanyrefs"); } else { GW.sent++; REACH("message-completed"); if (GW.plain_writes > 0 && GW.fd_writes > 0) REACH("completed-after-partial-fd-write"); }
  /* next head of queue: arbitrary message */
  GW.cur_hl = nondet_int(); GW.cur_bl = nondet_int(); GW.cur_n = nondet_unsigned(); __CPROVER_assume(GW.cur_hl >= 16 && GW.cur_bl >= 0 && GW.cur_hl <= 0x8000000 && GW.cur_bl <= 0x8000000 && GW.cur_n <= 0x2000000);
  GW.cur_written = 0; GW.fd_sent_for_cur = 0; }

void harness (void)
{
  DBusTransportSocket T; DBusTransport *t = &T.base;
  t->connection = (DBusConnection *)&o_conn; t->auth = (DBusAuth *)&o_auth; t->disconnected = nondet_bool();
  T.max_bytes_written_per_iteration = nondet_int(); __CPROVER_assume(T.max_bytes_written_per_iteration >= 0 && T.max_bytes_written_per_iteration <= 0x40000000);
  GI.authenticated = nondet_bool(); GI.can_fd = nondet_bool(); GI.needs_encoding = 0;   /* encoded (SASL-wrapped) transports never negotiate fds (assert in the code); their branch is not covered here */
  GW.cur_hl = nondet_int(); GW.cur_bl = nondet_int(); GW.cur_n = nondet_unsigned(); GW.cur_written = nondet_int(); GW.fd_sent_for_cur = nondet_bool();
  GW.fd_writes = GW.plain_writes = GW.sent = GW.dropped = GW.order_violations = 0; GW.last_write_had_fds = 0;
  /* transport invariant WRITE_INV (re-established at every return, post1) */
#define WRITE_INV (GW.cur_hl >= 16 && GW.cur_bl >= 0 && GW.cur_hl <= 0x8000000 && GW.cur_bl <= 0x8000000 && GW.cur_n <= 0x2000000 \
     && T.message_bytes_written == GW.cur_written && GW.cur_written >= 0 && GW.cur_written < GW.cur_hl + GW.cur_bl \
     && (!GI.can_fd || (GW.fd_sent_for_cur == (GW.cur_written > 0))) && (GI.can_fd || !GW.fd_sent_for_cur))
  T.message_bytes_written = nondet_int();
  __CPROVER_assume(WRITE_INV);
  dbus_bool_t ret = do_writing (t);
  __CPROVER_assert(WRITE_INV, "post1 WRITE_INV re-established: bytes-written counter == bytes on the wire, fds sent iff first byte sent");
  __CPROVER_assert(IMP(!GI.can_fd, GW.fd_writes == 0), "post2 no descriptor is ever handed to sendmsg on a transport that did not negotiate fd passing");
  __CPROVER_assert(ret, "post3 unencoded writing never reports OOM");
  REACH("returned"); if (!GI.authenticated) REACH("not-authenticated");
}
#else
/* ---------------- do_reading ---------------- */
struct c15_read_ghost { _Bool may_read_fds, outstanding, buffer_out; unsigned offered, pending, cap; int *offered_ptr; unsigned fd_reads, plain_reads, returns; int max_to_read; _Bool watch_enabled, needs_decoding; int last_ret; unsigned last_got; } GR;
static DBusString s_buf; static int loader_fds[8];
void verif_stub_check_read_watch (DBusTransport *t) {}
dbus_bool_t dbus_watch_get_enabled (DBusWatch *w) { return GR.watch_enabled; }
dbus_bool_t _dbus_auth_needs_decoding (DBusAuth *a) { return GR.needs_decoding; }
void _dbus_message_loader_get_buffer (DBusMessageLoader *l, DBusString **buffer, int *max_to_read, dbus_bool_t *may_read_unix_fds)
{ PRE(l == (DBusMessageLoader *)&o_loader && !GR.buffer_out, "_dbus_message_loader_get_buffer: buffer not outstanding"); GR.buffer_out = 1; *buffer = &s_buf;
  if (max_to_read) { *max_to_read = GR.max_to_read; } if (may_read_unix_fds) *may_read_unix_fds = GR.may_read_fds; }
void _dbus_message_loader_return_buffer (DBusMessageLoader *l, DBusString *buffer) { PRE(GR.buffer_out && buffer == &s_buf && !GR.outstanding, "_dbus_message_loader_return_buffer: after the fd array was returned"); GR.buffer_out = 0; }
/* contract as proved by C15.loader_get_unix_fds / C15.loader_fd_roundtrip */
dbus_bool_t _dbus_message_loader_get_unix_fds (DBusMessageLoader *l, int **fds, unsigned *max_n_fds)
{ PRE(l == (DBusMessageLoader *)&o_loader && !GR.outstanding, "_dbus_message_loader_get_unix_fds: array not outstanding");
  if (nondet_bool()) return 0; GR.outstanding = 1; GR.offered = GR.cap - GR.pending; GR.offered_ptr = loader_fds; *fds = loader_fds; *max_n_fds = GR.offered; return 1; }
void _dbus_message_loader_return_unix_fds (DBusMessageLoader *l, int *fds, unsigned n_fds)
{ PRE(GR.outstanding && fds == GR.offered_ptr, "_dbus_message_loader_return_unix_fds: the array that was handed out");
  PRE(n_fds <= GR.offered, "_dbus_message_loader_return_unix_fds: n_fds within the offered capacity");
  GR.outstanding = 0; GR.pending += n_fds; GR.returns++; }
/* assumed (recvmsg wrapper): on entry *n_fds = room; on return *n_fds <= room; on error no descriptor is kept */
int _dbus_read_socket_with_unix_fds (DBusSocket fd, DBusString *buffer, int count, int *fds, unsigned int *n_fds)
{ PRE(GI.can_fd && GR.may_read_fds, "fd-accepting read: only where negotiated and only at a message boundary the loader allows");
  PRE(GR.outstanding && fds == GR.offered_ptr && n_fds != NULL && *n_fds == GR.offered, "fd-accepting read: descriptors go only into the loader's own array, within its free capacity");
  PRE(buffer == &s_buf && GR.buffer_out && count <= GR.max_to_read, "fd-accepting read: into the loader buffer, at most max_to_read bytes");
  GR.fd_reads++; REACH("read-with-fds"); unsigned room = *n_fds; unsigned got = nondet_unsigned(); __CPROVER_assume(got <= room); *n_fds = got; GR.last_got = got; GR.last_ret = nondet_int(); return GR.last_ret; }
int _dbus_read_socket (DBusSocket fd, DBusString *buffer, int count)
{ PRE(!(GI.can_fd && GR.may_read_fds) || GR.needs_decoding, "plain read: only when descriptors cannot arrive here");
  GR.plain_reads++; REACH("read-plain"); return nondet_int(); }
int _dbus_string_get_length (const DBusString *s) { int r = nondet_int(); __CPROVER_assume(r >= 0); return r; }
dbus_bool_t _dbus_string_set_length (DBusString *s, int len) { return 1; }
dbus_bool_t _dbus_string_compact (DBusString *s, int max_waste) { return nondet_bool(); }
dbus_bool_t _dbus_auth_decode_data (DBusAuth *a, const DBusString *in, DBusString *out) { return nondet_bool(); }
#define READ_INV (!GR.outstanding && !GR.buffer_out && GR.pending <= GR.cap)
/* back-edge cut: invariant asserted, then the path ends (see header comment) */
dbus_bool_t _dbus_transport_queue_messages (DBusTransport *t)
{ __CPROVER_assert(READ_INV, "loop invariant at the back edge (goto again): loader arrays returned, pending <= capacity");
  if (nondet_bool()) return 0;
  REACH("back-edge"); __CPROVER_assume(0); return 1; }
void harness (void)
{
  DBusTransportSocket T; DBusTransport *t = &T.base;
  t->connection = (DBusConnection *)&o_conn; t->auth = (DBusAuth *)&o_auth; t->loader = (DBusMessageLoader *)&o_loader; t->disconnected = nondet_bool();
  T.read_watch = t->disconnected ? NULL : (DBusWatch *)&o_watch;
  T.max_bytes_read_per_iteration = nondet_int();
  GI.authenticated = nondet_bool(); GI.can_fd = nondet_bool(); GW.last_write_had_fds = 0;
  GR.needs_decoding = 0;   /* decoding (SASL-wrapped) branch excluded: no in-tree mechanism decodes, and the code asserts such transports never negotiate fds */
  GR.may_read_fds = nondet_bool(); GR.watch_enabled = nondet_bool(); GR.max_to_read = nondet_int(); __CPROVER_assume(GR.max_to_read >= 0 && GR.max_to_read <= DBUS_MAXIMUM_MESSAGE_LENGTH);
  GR.cap = nondet_unsigned(); GR.pending = nondet_unsigned(); __CPROVER_assume(GR.cap <= 8);
  GR.outstanding = 0; GR.buffer_out = 0; GR.fd_reads = GR.plain_reads = GR.returns = 0;
  __CPROVER_assume(READ_INV);
  unsigned pending0 = GR.pending;
  dbus_bool_t ret = do_reading (t);
  __CPROVER_assert(READ_INV, "post1 READ_INV at every return: fd array and buffer handed back, pending <= capacity");
  __CPROVER_assert(GR.fd_reads <= 1 && GR.returns == GR.fd_reads, "post2 every fd-accepting read is followed by exactly one return of the array");
  __CPROVER_assert(IMP(!GI.can_fd, GR.fd_reads == 0 && GR.pending == pending0), "post3 no descriptor is accepted on a transport that did not negotiate fd passing");
  __CPROVER_assert(IMP(!GR.may_read_fds, GR.fd_reads == 0 && GR.pending == pending0), "post4 no descriptor is accepted where the loader forbids it (middle of a message)");
  __CPROVER_assert(IMP(GR.fd_reads == 1, GR.pending == pending0 + (GR.last_ret < 0 ? 0 : GR.last_got)), "post5 the loader keeps exactly the descriptors the read reported, none after a failed read");
  REACH("returned"); if (GR.pending > pending0) REACH("fds-added"); if (!ret) REACH("oom"); if (GR.fd_reads == 1 && GR.last_ret < 0) REACH("fd-read-failed");
}
#endif
